#!/usr/bin/env python3
"""Confirm a sub-agent's seeded change independently and run the checks against it.
usage: evalseed.py SRC_DIR ID [--features F] [--cargo-args "--release --no-default-features"] [--tier quick]
  SRC_DIR contains patch.diff, demo/ (integration test .rs files + README.txt), notes.md
Steps (all in a scratch git worktree of /repo under /tmp/ev, removed afterwards):
  1. patch applies; existing suite passes with it (cargo test --workspace)
  2. demo fails with the patch, passes without
  3. every registered quick check is run on the patched tree; which fire is recorded
Result -> /verif/seeded/<ID>/{patch.diff,demo/,notes.md,meta.json}"""
import glob, hashlib, json, os, re, shutil, subprocess, sys
VERIF = os.path.dirname(os.path.dirname(os.path.abspath(__file__)))
def sh(cmd, cwd, env=None, timeout=3600):
    r = subprocess.run(cmd, cwd=cwd, env=env, capture_output=True, text=True, timeout=timeout, shell=isinstance(cmd, str))
    return r.returncode, r.stdout + r.stderr
def main():
    a = sys.argv[1:]
    src, sid = a[0], a[1]
    feats = None; tier = "quick"
    if "--features" in a: feats = a[a.index("--features") + 1]
    if "--tier" in a: tier = a[a.index("--tier") + 1]
    extra = a[a.index("--cargo-args") + 1].split() if "--cargo-args" in a else []
    rustflags = a[a.index("--rustflags") + 1] if "--rustflags" in a else None
    extra_env = dict(kv.split("=", 1) for kv in a[a.index("--env") + 1].split(",")) if "--env" in a else {}
    demo_dir = a[a.index("--demo-dir") + 1] if "--demo-dir" in a else "fast-tlsh/tests"
    demo_pkg = a[a.index("--demo-pkg") + 1] if "--demo-pkg" in a else "fast-tlsh"
    wt = "/tmp/ev/" + sid
    os.makedirs("/tmp/ev", exist_ok=True)
    subprocess.run(["git", "-C", "/repo", "worktree", "remove", "--force", wt], capture_output=True)
    rc, out = sh(["git", "-C", "/repo", "worktree", "add", "-q", wt, "HEAD"], "/")
    if rc: print(out); return 2
    env = dict(os.environ, CARGO_TARGET_DIR="/tmp/ev/target", CARGO_NET_OFFLINE="true")
    meta = {"id": sid, "source": src, "features": feats, "cargo_args": extra, "rustflags": rustflags, "env": extra_env}
    try:
        patch = os.path.join(src, "patch.diff")
        rc, out = sh(["git", "apply", "--check", patch], wt)
        meta["patch_applies"] = rc == 0
        if rc: print("patch does not apply:", out[-500:]); return 2
        sh(["git", "apply", patch], wt)
        rc, out = sh("cargo test --workspace --no-fail-fast --offline 2>&1 | grep -E '^test result|FAILED|error(\\[|:)' | head -20", wt, env)
        res = re.findall(r"test result: (\w+)\. (\d+) passed; (\d+) failed", out)
        meta["suite_with_patch"] = res
        lib_ok = any(int(p) == 149 and int(f) == 0 for (_, p, f) in res) and all(int(f) == 0 for (_, p, f) in res) and "error" not in out
        meta["suite_passes_with_patch"] = lib_ok
        print("suite with patch:", res[:4], "OK" if lib_ok else "NOT OK")
        # demo
        os.makedirs(os.path.join(wt, demo_dir), exist_ok=True)
        demos = []
        for f in glob.glob(os.path.join(src, "demo", "*.rs")):
            shutil.copy(f, os.path.join(wt, demo_dir))
            demos.append(os.path.splitext(os.path.basename(f))[0])
        standalone = os.path.exists(os.path.join(src, "demo", "Cargo.toml"))
        sdst = os.path.join(wt, os.path.basename(os.path.dirname(src.rstrip("/"))), os.path.basename(src.rstrip("/")))
        if standalone:
            # a standalone demo package that path-depends on ../../../fast-tlsh: place it at the same relative position in this worktree
            shutil.copytree(src, sdst, ignore=shutil.ignore_patterns("target"))
        def run_demo():
            outs = []
            ok = True
            if standalone:
                env2 = dict(env, **extra_env)
                if rustflags: env2["RUSTFLAGS"] = rustflags
                env2["CARGO_TARGET_DIR"] = "/tmp/ev/target-demo-" + sid
                script = [f for f in (os.path.join(sdst, "demo.sh"), os.path.join(sdst, "demo", "demo.sh")) if os.path.exists(f)]
                if script:
                    rc, out = sh(["sh", script[0]], os.path.dirname(script[0]), env2)
                else:
                    rc, out = sh(["cargo", "run", "--offline"] + extra, os.path.join(sdst, "demo"), env2)
                return rc == 0, [("standalone", rc, out[-400:])]
            for d in demos:
                cmd = ["cargo", "test", "-p", demo_pkg, "--offline", "--test", d] + (["--features", feats] if feats else []) + extra
                rc, out = sh(cmd, wt, dict(dict(env, **extra_env), RUSTFLAGS=rustflags) if rustflags else dict(env, **extra_env))
                outs.append((d, rc, re.findall(r"test result: .*", out)[:2]))
                ok = ok and rc == 0
            for f in glob.glob(os.path.join(src, "demo", "*.sh")):
                rc, out = sh(["sh", f], wt, env)
                outs.append((os.path.basename(f), rc, out[-300:]))
                ok = ok and rc == 0
            return ok, outs
        ok_with, outs_with = run_demo()
        meta["demo_with_patch"] = outs_with
        sh(["git", "apply", "-R", patch], wt)
        ok_without, outs_without = run_demo()
        meta["demo_without_patch"] = outs_without
        meta["demo_discriminates"] = (not ok_with) and ok_without and bool(outs_with)
        print("demo with patch:", "fails" if not ok_with else "PASSES", "| without:", "passes" if ok_without else "FAILS")
        # checks on the patched tree
        sh(["git", "apply", patch], wt)
        shutil.rmtree(os.path.join(wt, os.path.basename(os.path.dirname(src.rstrip("/")))), ignore_errors=True)
        shutil.rmtree("/tmp/ev/target-demo-" + sid, ignore_errors=True)
        for d in demos: os.remove(os.path.join(wt, demo_dir, d + ".rs"))
        props = ["C%02d" % i for i in range(1, 19)]
        fired = {}
        evd = "/tmp/ev/evidence-" + sid
        for p in props:
            r = subprocess.run([os.path.join(VERIF, "check"), p, "--tier", tier, "--repo", wt], capture_output=True, text=True,
                               env=dict(os.environ, TLSH_EVIDENCE_DIR=evd))
            keys = re.findall(r"^  key    : (.*)$", r.stdout, re.M)
            if r.returncode != 0:
                fired[p] = {"rc": r.returncode, "keys": keys[:6]}
        meta["checks_fired"] = fired
        print("checks fired:", {k: v["keys"][:2] for k, v in fired.items()})
        dst = os.path.join(VERIF, "seeded", sid)
        shutil.rmtree(dst, ignore_errors=True)
        os.makedirs(dst)
        shutil.copy(patch, dst)
        if os.path.isdir(os.path.join(src, "demo")): shutil.copytree(os.path.join(src, "demo"), os.path.join(dst, "demo"))
        if os.path.exists(os.path.join(src, "notes.md")): shutil.copy(os.path.join(src, "notes.md"), dst)
        json.dump(meta, open(os.path.join(dst, "meta.json"), "w"), indent=1)
        return 0
    finally:
        subprocess.run(["git", "-C", "/repo", "worktree", "remove", "--force", wt], capture_output=True)
        tag = hashlib.sha256(wt.encode()).hexdigest()[:8]
        for d in (os.path.join(VERIF, ".work", "facts", tag), os.path.join(VERIF, ".work", "target", tag), os.path.join(VERIF, ".work", "witness", tag), "/tmp/ev/evidence-" + sid):
            shutil.rmtree(d, ignore_errors=True)
sys.exit(main())
