#!/bin/bash
# usage: rp.sh NAME PROP...   (development aid) run the given checks, quick tier, on selftest/agents/NAME.diff; compact output
cd /verif
n=$1; shift
tools/trymut.py --patch selftest/agents/$n.diff "$@" 2>&1 | grep -E "rc=[12]|key|what|Error|line [0-9]+, in" | sed 's/<generate::inner::Generator<SIZE_CKSUM, SIZE_BODY, SIZE_BUCKETS, SIZE_IN_BYTES, SIZE_IN_STR_BYTES> as generate::public::GeneratorType>/GEN/g; s/<hash::inner::FuzzyHash<SIZE_CKSUM, SIZE_BODY, SIZE_BUCKETS, SIZE_IN_BYTES, SIZE_IN_STR_BYTES> as hash::public::FuzzyHashType>/FH/g' | cut -c1-${W:-420}
