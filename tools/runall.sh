#!/bin/bash
# Runs every registered check in both tiers on the unchanged tree; any non-zero exit or VIOLATION line is a broken check.
cd /verif
rc=0
for t in quick thorough; do
  for i in $(seq -w 1 18); do
    out=$(./check C$i --tier $t 2>&1); r=$?
    echo "$out" | tail -1
    if [ $r -ne 0 ] || echo "$out" | grep -q "^VIOLATION"; then echo "BROKEN: C$i $t rc=$r"; rc=1; fi
  done
done
python3-vt - <<'PY'
import json, jsonschema, glob
sch = json.load(open('/root/.vp/EVIDENCE.schema.json'))
for f in sorted(glob.glob('/verif/evidence/C*.json')):
    jsonschema.validate(json.load(open(f)), sch)
jsonschema.validate(json.load(open('/verif/MANIFEST.json')), json.load(open('/root/.vp/MANIFEST.schema.json')))
print("evidence + manifest schema ok")
PY
exit $rc
