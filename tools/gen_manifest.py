#!/usr/bin/env python3
"""Regenerates MANIFEST.json from the property modules present under rules/props."""
import importlib, json, os, sys
ROOT = os.path.dirname(os.path.dirname(os.path.abspath(__file__)))
sys.path.insert(0, ROOT)
props = [json.loads(l) for l in open(os.path.join(ROOT, "properties.jsonl"))]
checks = []
na = []
PENDING = {}
for p in props:
    pid = p["id"]
    try:
        mod = importlib.import_module("rules.props.%s" % pid.lower())
    except ImportError:
        na.append({"property_id": pid, "reason": "static rules for this property are designed (DESIGN.md section 4) but not built yet in this round"})
        continue
    nd = mod.META.get("not_decided", [])
    checks.append({
        "property_id": pid,
        "quick_cmd": "./check %s --tier quick" % pid,
        "thorough_cmd": "./check %s --tier thorough" % pid,
        "evidence_file": "evidence/%s.json" % pid,
        "replay_cmd_template": "./check %s --replay {path}" % pid,
        "engine": "tlsh-facts+rules",
        "level_claimed": {
            "category": "other",
            "text": mod.META["explanation"],
            "design_ref": "DESIGN.md section 4, %s" % pid,
        },
        "level_note": "Static necessary/sufficient conditions over the compiler's view of the source, not behaviour on inputs. Trusted base: %s. NOT decided: %s. Configurations: quick %s; thorough %s." % (
            "; ".join(mod.META.get("trusted_base", [])), "; ".join(nd) if nd else "(nothing beyond the trusted base)",
            ",".join(mod.CONFIGS["quick"]), ",".join(mod.CONFIGS["thorough"])),
        "technique": "static analysis: rustc_private MIR/const-eval fact extraction + repository-specific rules (" + getattr(mod, "TECHNIQUE", "path/dataflow rules, table value rules") + ")",
    })
m = {
    "version": 1,
    "setup_cmd": "./setup.sh",
    "hooks": {
        "guard": "fast_tlsh_verif",
        "enable": "none needed: the analyses read the compiler's view of the unmodified source (guard name reserved, unused)",
        "baseline_off_cmd": "cd /repo && cargo test --workspace --no-fail-fast --offline",
        "source_commits": [],
        "add_only": True,
    },
    "engines": [
        {"name": "tlsh-facts", "path": "driver/", "serves_properties": [c["property_id"] for c in checks],
         "kind_free_text": "rustc_private driver (RUSTC_WORKSPACE_WRAPPER under cargo +nightly check) dumping items, impls, constant values, MIR with resolved callees per feature configuration"},
        {"name": "rules", "path": "rules/", "serves_properties": [c["property_id"] for c in checks],
         "kind_free_text": "Python rule engine: def-use path extraction over MIR, decision tables, slice-window analysis, call-graph reachability, table value rules, known-findings handling, evidence"},
    ],
    "checks": checks,
    "not_applicable": na,
    "notes": "Technique family: static analysis only. No check compiles or runs library code; several rules interpret the compiler's IR of individual loop-free functions exactly over finite, completely enumerated domains (DESIGN.md section 1 amendment, 9.3, 9.5) -- a reader who counts that as execution should discount the rules listed there. Three genuine defects found by the rules were repaired in /repo with fix: commits (known_findings.txt).",
}
json.dump(m, open(os.path.join(ROOT, "MANIFEST.json"), "w"), indent=1)
print("checks:", [c["property_id"] for c in checks], "n/a:", [x["property_id"] for x in na])
