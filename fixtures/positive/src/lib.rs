//! Positive fixtures: one deliberately violating function per zero-expected rule.
//! Analysed by the same driver and the same rule code on every run; a rule that does not
//! fire here is broken machinery.
#![allow(dead_code)]
extern crate alloc;
use std::io::Read;

macro_rules! invariant {
    ($e:expr) => {
        if !($e) {
            unsafe { core::hint::unreachable_unchecked() }
        }
    };
}

/// R-18.1 fixture: a "core operation" that allocates through a helper.
pub fn core_op_allocates(n: usize) -> usize {
    helper(n)
}
fn helper(n: usize) -> usize {
    let v: alloc::vec::Vec<u8> = alloc::vec::Vec::with_capacity(n);
    v.capacity()
}

/// R-17.1 fixture: an invariant fed by a caller-supplied trait implementation.
pub fn invariant_on_reader<R: Read>(r: &mut R, buf: &mut [u8]) -> usize {
    let n = r.read(buf).unwrap_or(0);
    invariant!(n <= buf.len());
    n
}

/// R-16.3 / R-05.3 / R-17.6 fixture: unwrap of a fallible parse, unguarded indexing, unguarded arithmetic.
pub fn unwrap_on_parse(s: &str) -> u32 {
    s.parse::<u32>().unwrap()
}
pub fn unguarded_index(b: &[u8]) -> u8 {
    b[3]
}
pub fn unguarded_window(b: &[u8]) -> &[u8] {
    &b[2..6]
}
pub fn unguarded_add(a: u32, b: u32) -> u32 {
    a + b
}
/// and the discharged twins (must stay silent)
pub fn guarded_index(b: &[u8]) -> u8 {
    if b.len() != 4 {
        return 0;
    }
    b[3]
}
pub fn guarded_window(b: &[u8]) -> &[u8] {
    if b.len() < 6 {
        return b;
    }
    &b[2..6]
}
pub fn guarded_add(a: u8, b: u8) -> u32 {
    a as u32 + b as u32
}
